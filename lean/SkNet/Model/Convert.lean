/-
Model of the conversion utilities of property C15:
  utils/membership.py (get_membership, from_membership), utils/neighbors.py (get_neighbors, get_degrees,
  get_weights), utils/format.py (directed2undirected, bipartite2directed, bipartite2undirected on csr
  matrices; the SparseLR branches are in Model/LinOp.lean), linalg/laplacian.py (get_laplacian),
  utils/tfidf.py (get_tfidf), ranking/postprocess.py (top_k).

Functions that read the CSR arrays themselves (`indptr`, `indices`: membership, neighbors, degrees) are
modelled on `Csr`; functions that only use scipy's matrix algebra are modelled on `Mat` (entries).
`np.log`, `np.argsort` / `np.argpartition` are external: `log` enters as a table, the sort as a concrete
stable sort (the harness compares up to ties through the specification `TopKSpec`).
-/
import SkNet.Model.Basic
import SkNet.Model.LinOp

namespace SkNet.Convert
open SkNet SkNet.LinOp

/-! ### get_membership / from_membership -/

/-- `max(labels) + 1` (Python's `max` of an empty sequence raises `ValueError`) -/
def maxPlusOne : List Int → Option Int
  | [] => none
  | x :: xs => some (xs.foldl max x + 1)

/-- number of non-negative labels among the first `i` -/
def countNonneg (labels : List Int) (i : Nat) : Nat := ((labels.take i).filter (0 ≤ ·)).length

/-- number of columns of the membership matrix: `n_labels`, else `max(labels) + 1` -/
def membershipCols (labels : List Int) (nLabels : Option Nat) : Except PyErr Int :=
  match nLabels with
  | some k => .ok (k : Int)
  | none => match maxPlusOne labels with
    | none => .error .valueError            -- max() of an empty sequence
    | some m => .ok m

/-- the CSR arrays of `csr_matrix((ones, (arange(n)[ix], labels[ix])), shape=(n, m))`, `ix = labels >= 0` -/
def membershipCsr (labels : List Int) (m : Int) : Csr Rat :=
  let kept := labels.filter (0 ≤ ·)
  { nRow := labels.length, nCol := m.toNat,
    indptr := (tab (labels.length + 1) fun i => countNonneg labels i).toArray,
    indices := (kept.map Int.toNat).toArray,
    data := (kept.map fun _ => (1 : Rat)).toArray }

/-- `get_membership(labels, n_labels=…)` -/
def getMembership (labels : List Int) (nLabels : Option Nat) : Except PyErr (Csr Rat) := do
  let m ← membershipCols labels nLabels
  if m < 0 then .error .valueError          -- 'shape' elements cannot be negative
  else if (labels.filter (0 ≤ ·)).any (fun l => m ≤ l) then .error .valueError   -- column index exceeds matrix dimension
  else .ok (membershipCsr labels m)

/-- `get_degrees(matrix)`: `indptr[1:] - indptr[:-1]` -/
def degrees (c : Csr α) : List Nat := tab c.nRow fun i => c.indptr.getD (i+1) 0 - c.indptr.getD i 0

/-- `labels[mask] = values` for `labels = -ones(n)`: the masked positions receive the values in order -/
def assignMasked : List Bool → List Int → List Int
  | [], _ => []
  | false :: ms, vs => (-1) :: assignMasked ms vs
  | true :: ms, [] => (-1) :: assignMasked ms []
  | true :: ms, v :: vs => v :: assignMasked ms vs

/-- `from_membership(membership)`; numpy refuses the masked assignment when the number of stored
    column indices differs from the number of non-empty rows -/
def fromMembership (c : Csr α) : Except PyErr (List Int) :=
  let mask : List Bool := (degrees c).map fun d => decide (0 < d)
  let k := (mask.filter id).length
  if c.indices.size ≠ k then .error .valueError
  else .ok (assignMasked mask (c.indices.toList.map Int.ofNat))

/-- what `from_membership ∘ get_membership` must give: negatives become `-1` -/
def clampLabels (labels : List Int) : List Int := labels.map fun l => if l < 0 then -1 else l

/-! ### get_neighbors / get_degrees / get_weights -/

/-- `sparse.csr_matrix(input_matrix.T)`: csc → csr conversion; row `j` of the result lists the stored
    entries of column `j` by increasing original row, storage order inside a row (duplicates kept) -/
def csrTranspose [Inhabited α] (c : Csr α) : Csr α :=
  let ents : List (List (Nat × α)) := tab c.nCol fun j =>
    (List.range c.nRow).flatMap fun i => ((c.row i).filter fun e => e.1 == j).map fun e => (i, e.2)
  let lens := ents.map List.length
  { nRow := c.nCol, nCol := c.nRow,
    indptr := (tab (c.nCol + 1) fun j => (lens.take j).foldl (· + ·) 0).toArray,
    indices := (ents.flatMap fun r => r.map (·.1)).toArray,
    data := (ents.flatMap fun r => r.map (·.2)).toArray }

def orT [Inhabited α] (c : Csr α) (transpose : Bool) : Csr α := if transpose then csrTranspose c else c

/-- `get_neighbors(input_matrix, node, transpose)`: `indices[indptr[node]:indptr[node+1]]`
    (`indptr[node+1]` raises `IndexError` past the last row) -/
def getNeighbors [Inhabited α] (c : Csr α) (node : Nat) (transpose : Bool) : Except PyErr (List Nat) :=
  let m := orT c transpose
  if m.nRow ≤ node then .error .indexError else .ok (m.rowIdx node)

def getDegrees [Inhabited α] (c : Csr α) (transpose : Bool) : List Nat := degrees (orT c transpose)

/-- `get_weights`: `matrix.dot(np.ones(n_col))`, the sum of the stored values of every row -/
def getWeights (c : Csr Rat) (transpose : Bool) : List Rat :=
  let m := orT c transpose
  tab m.nRow fun i => ((m.row i).map (·.2)).foldl (· + ·) 0

/-- the dense matrix a CSR matrix denotes (duplicates add up) -/
def csrDense (c : Csr Rat) : Mat :=
  Mat.ofFn c.nRow c.nCol fun i j => (((c.row i).filter fun e => e.1 == j).map (·.2)).foldl (· + ·) 0

/-! ### format.py on csr matrices -/

inductive Dtype | bool | int | float32 | float64
deriving DecidableEq, Repr

/-- dtype of `directed2undirected(adjacency, weighted=True)`: floating types stay floating (repaired code:
    the pinned code tested `dtype == float`, which sent float32 through `astype(int)`), others become int -/
def d2uDtype : Dtype → Dtype
  | .float64 => .float64
  | .float32 => .float64
  | _ => .int

/-- `adjacency.maximum(adjacency.T)` entry by entry -/
def rmax (x y : Rat) : Rat := if x < y then y else x

/-- `directed2undirected` on a csr matrix; `adjacency + adjacency.T` / `adjacency.maximum(adjacency.T)` need a square
matrix.  Unweighted: `adjacency.maximum(adjacency.T) > 0` (repair F16r; the pinned code took the pattern of
`adjacency + adjacency.T`, which differs from the documented `max(A, Aᵀ) > 0` on negative and on cancelling weights) -/
def directed2undirected (a : Mat) (weighted : Bool) : Except PyErr Mat :=
  if a.nRow ≠ a.nCol then .error .valueError
  else if weighted then .ok (a.add a.transpose)
  else .ok (Mat.ofFn a.nRow a.nCol fun i j => if 0 < rmax (a.get i j) (a.get j i) then 1 else 0)

/-- `bipartite2directed` : `bmat([[None, B], [csr((n_col, n_row)), None]])` -/
def bipartite2directed (b : Mat) : Mat := Mat.block b (Mat.zero b.nCol b.nRow)

/-- `bipartite2undirected` : `bmat([[None, B], [B.T, None]])` -/
def bipartite2undirected (b : Mat) : Mat := Mat.block b b.transpose

/-! ### get_laplacian -/

/-- `sparse.diags(adjacency.dot(np.ones(n))) - adjacency` -/
def getLaplacian (a : Mat) : Except PyErr Mat :=
  if a.nRow ≠ a.nCol then .error .valueError
  else .ok ((Mat.diag a.nRow (a.mulVec (ones a.nRow))).sub a)

/-! ### get_tfidf -/

/-- `get_degrees(count_matrix > 0, transpose=True)`: number of documents with a positive count -/
def docFreq (count : Mat) : List Nat :=
  tab count.nCol fun j => ((List.range count.nRow).filter fun i => 0 < count.get i j).length

/-- `get_tfidf(count_matrix)`; `logTable[f-1]` stands for `np.log(n_documents / f)`, `f = 1 … n_documents` -/
def getTfidf (count : Mat) (logTable : List Rat) : Mat :=
  let tf := normalize1 count
  let freq := docFreq count
  let idf : Vec := tab count.nCol fun j =>
    let f := freq.getD j 0
    if 0 < f then logTable.getD (f - 1) 0 else 0
  Mat.ofFn count.nRow count.nCol fun i j => tf.get i j * vget idf j

/-! ### top_k -/

/-- insertion of index `i` (smaller than every index of the list) before the first index whose score is
    not larger: decreasing scores, ties by increasing index -/
def insertDesc (score : Nat → Rat) (i : Nat) : List Nat → List Nat
  | [] => [i]
  | j :: js => if score j ≤ score i then i :: j :: js else j :: insertDesc score i js

/-- a concrete stable `np.argsort(-scores)` -/
def argsortDesc (scores : List Rat) : List Nat :=
  (List.range scores.length).foldr (insertDesc fun i => vget scores i) []

/-- `top_k(scores, k, sort)` (repaired code: `np.arange(len(scores))` when `k ≥ n` and not `sort`).
    `argpartition` is modelled by the first `k` of the stable sort. -/
def topK (scores : List Rat) (k : Nat) (sort : Bool) : List Nat :=
  if scores.length ≤ k then
    (if sort then argsortDesc scores else List.range scores.length)
  else (argsortDesc scores).take k

/-- the pinned `top_k` (before the repair of F16): `np.arange(scores)` raises for `n ≥ 2`
    (a single score is not modelled: `arange` of a one-element array depends on the numpy version) -/
def topKPinned (scores : List Rat) (k : Nat) (sort : Bool) : Except PyErr (List Nat) :=
  if scores.length ≤ k then
    (if sort then .ok (argsortDesc scores)
     else match scores with
      | [] => .ok []
      | [_] => .error .unsupported
      | _ => .error .valueError)
  else .ok ((argsortDesc scores).take k)

/-- what `top_k` must return: `min(k, n)` distinct valid indices, none of the left-out scores larger than a
    returned one, in non-increasing order of score when `sort` -/
def TopKSpec (scores : List Rat) (k : Nat) (sort : Bool) (out : List Nat) : Bool :=
  out.length == min k scores.length &&
  out.all (· < scores.length) &&
  decide out.Nodup &&
  (List.range scores.length).all (fun i => out.contains i ||
    out.all fun j => vget scores i ≤ vget scores j) &&
  (!sort || (out.zip (out.drop 1)).all fun p => vget scores p.2 ≤ vget scores p.1)

end SkNet.Convert
