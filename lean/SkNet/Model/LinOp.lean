/-
Model of sknetwork/linalg: sparse_lowrank.py (SparseLR), operators.py (Regularizer, Normalizer, Laplacian,
CoNeighbor), polynome.py (Polynome), normalizer.py (diagonal_pseudo_inverse, get_norms, normalize),
basics.py (safe_sparse_dot routing), and of the SparseLR branches of utils/format.py  (property C15).

Mirrors the code method for method.  Conventions:
* a vector is a `List Rat` read with `vget` (0 outside), a new array is `tab n f`;
* a (sparse or dense) matrix is a `Mat` = declared shape + stored rows, read with `Mat.get` (0 outside the
  declared shape); scipy's own operations on sparse matrices (`+`, unary `-`, scalar `*`, `.T`, `.dot`)
  are the substrate: they are modelled by the entrywise definitions `Mat.add`, `Mat.neg`, `Mat.smul`,
  `Mat.transpose`, `Mat.mul`, `Mat.mulVec`, and raise `ValueError` on a shape mismatch (`add?`, `mul?`, …);
* a Python loop over `low_rank_tuples` / coefficients is a `foldl`;
* where the code raises the model returns `.error`.
The operators are values `Op`; operator expressions `OpExpr` are evaluated by `OpExpr.eval`, which follows
Python's dispatch (`SparseLR.__add__` vs scipy's generic `LinearOperator.__add__`, …).
-/
import SkNet.Model.Basic

namespace SkNet.LinOp
open SkNet

inductive PyErr
  | valueError | indexError | typeError | attributeError | notImplemented
  /-- a combination the model does not cover (never produced by the harness) -/
  | unsupported
deriving DecidableEq, Repr

def PyErr.show : PyErr → String
  | .valueError => "ValueError" | .indexError => "IndexError" | .typeError => "TypeError"
  | .attributeError => "AttributeError" | .notImplemented => "NotImplementedError"
  | .unsupported => "Unsupported"

/-! ### vectors -/

abbrev Vec := List Rat

/-- `Σ_{k<n} f k` -/
def sumTo : Nat → (Nat → Rat) → Rat
  | 0, _ => 0
  | n+1, f => sumTo n f + f n

def vget (v : Vec) (i : Nat) : Rat := v.getD i 0

/-- `u.dot(v)` for vectors of length `n` -/
def vdot (n : Nat) (u v : Vec) : Rat := sumTo n fun k => vget u k * vget v k

def vneg (v : Vec) : Vec := tab v.length fun i => - vget v i
def vsmul (c : Rat) (v : Vec) : Vec := tab v.length fun i => c * vget v i
def ones (n : Nat) : Vec := tab n fun _ => 1
def zeros (n : Nat) : Vec := tab n fun _ => 0
/-- `v.sum()` -/
def vsum (v : Vec) : Rat := sumTo v.length (vget v)
/-- `v.mean()` -/
def vmean (v : Vec) : Rat := vsum v / (v.length : Rat)

def rabs (x : Rat) : Rat := if x < 0 then -x else x

/-- the dtypes `astype` is exercised with: the floating types keep the values (float32 up to rounding, outside the
model), `int` truncates towards zero -/
inductive CastTo
  | float64 | float32 | int
deriving DecidableEq, Repr

/-- `numpy`'s cast of a float to an integer type: truncation towards zero -/
def rtrunc (x : Rat) : Rat := ((x.num.tdiv (x.den : Int) : Int) : Rat)

def rcast (dt : CastTo) (x : Rat) : Rat := match dt with | .int => rtrunc x | _ => x

def vcast (dt : CastTo) (v : Vec) : Vec := v.map (rcast dt)

/-! ### matrices (the scipy / numpy substrate, by entries) -/

structure Mat where
  nRow : Nat
  nCol : Nat
  rows : List (List Rat)
deriving Repr, DecidableEq

namespace Mat

/-- entry `(i, j)`; `0` outside the declared shape -/
def get (m : Mat) (i j : Nat) : Rat :=
  if i < m.nRow ∧ j < m.nCol then (m.rows.getD i []).getD j 0 else 0

def ofFn (n m : Nat) (f : Nat → Nat → Rat) : Mat := ⟨n, m, tab n fun i => tab m fun j => f i j⟩

def zero (n m : Nat) : Mat := ofFn n m fun _ _ => 0
def identity (n : Nat) : Mat := ofFn n n fun i j => if i = j then 1 else 0
/-- `sparse.diags(w)` for a vector of length `n` -/
def diag (n : Nat) (w : Vec) : Mat := ofFn n n fun i j => if i = j then vget w i else 0
/-- the all-ones matrix scaled: `c * 1 1ᵀ` -/
def const (n m : Nat) (c : Rat) : Mat := ofFn n m fun _ _ => c
/-- `x yᵀ` -/
def outer (n m : Nat) (x y : Vec) : Mat := ofFn n m fun i j => vget x i * vget y j

def add (a b : Mat) : Mat := ofFn a.nRow a.nCol fun i j => a.get i j + b.get i j
def sub (a b : Mat) : Mat := ofFn a.nRow a.nCol fun i j => a.get i j - b.get i j
def neg (a : Mat) : Mat := ofFn a.nRow a.nCol fun i j => - a.get i j
def smul (c : Rat) (a : Mat) : Mat := ofFn a.nRow a.nCol fun i j => c * a.get i j
def transpose (a : Mat) : Mat := ofFn a.nCol a.nRow fun i j => a.get j i
def mul (a b : Mat) : Mat := ofFn a.nRow b.nCol fun i j => sumTo a.nCol fun k => a.get i k * b.get k j
def mulVec (a : Mat) (x : Vec) : Vec := tab a.nRow fun i => sumTo a.nCol fun j => a.get i j * vget x j
/-- column `k` as a vector -/
def col (a : Mat) (k : Nat) : Vec := tab a.nRow fun i => a.get i k
/-- matrix whose columns are `f 0, …, f (k-1)` (`np.stack(..., axis=-1)`) -/
def ofCols (n k : Nat) (f : Nat → Vec) : Mat :=
  let cols := tab k f
  ofFn n k fun i j => vget (cols.getD j []) i
/-- `k`-th power (`a` square) -/
def pow (a : Mat) : Nat → Mat
  | 0 => identity a.nRow
  | k+1 => (pow a k).mul a
/-- `[[0, B], [C, 0]]` with `B : r × c`, `C : c × r` (`sparse.bmat`) -/
def block (b c : Mat) : Mat :=
  ofFn (b.nRow + b.nCol) (b.nRow + b.nCol) fun i j =>
    if i < b.nRow then (if j < b.nRow then 0 else b.get i (j - b.nRow))
    else (if j < b.nRow then c.get (i - b.nRow) j else 0)

/-- row sums `a.dot(np.ones(n_col))` -/
def rowSums (a : Mat) : Vec := a.mulVec (ones a.nCol)
/-- entrywise absolute value -/
def abs (a : Mat) : Mat := ofFn a.nRow a.nCol fun i j => rabs (a.get i j)

/-- `a.astype(dtype)`: the stored entries are cast one by one -/
def cast (dt : CastTo) (a : Mat) : Mat := ⟨a.nRow, a.nCol, a.rows.map fun r => r.map (rcast dt)⟩

/-- no non-zero entry (`check_format` refuses a matrix with `nnz == 0`; matrices whose stored entries are all
    explicit zeros are not sent by the harness) -/
def isNull (a : Mat) : Bool :=
  (List.range a.nRow).all fun i => (List.range a.nCol).all fun j => a.get i j == 0

/-- scipy raises `ValueError('inconsistent shapes')` -/
def add? (a b : Mat) : Except PyErr Mat :=
  if a.nRow = b.nRow ∧ a.nCol = b.nCol then .ok (a.add b) else .error .valueError
/-- scipy raises `ValueError('dimension mismatch')` -/
def mul? (a b : Mat) : Except PyErr Mat :=
  if a.nCol = b.nRow then .ok (a.mul b) else .error .valueError
def mulVec? (a : Mat) (x : Vec) : Except PyErr Vec :=
  if a.nCol = x.length then .ok (a.mulVec x) else .error .valueError

end Mat

/-! ### `diagonal_pseudo_inverse`, `get_norms`, `normalize` (normalizer.py) -/

/-- `1 / w` on the stored (non-zero) entries of `sparse.diags(w)`, null weights stay null -/
def pinv (w : Rat) : Rat := if w = 0 then 0 else 1 / w

/-- `diagonal_pseudo_inverse(weights)`, as the vector of its diagonal -/
def pinvVec (w : Vec) : Vec := tab w.length fun i => pinv (vget w i)

/-- `get_norms(matrix, p=1)` on a sparse / dense matrix: row sums of absolute values -/
def norms1 (a : Mat) : Vec := a.abs.rowSums

/-- `get_norms(matrix, p=2)` squared (the code takes `np.sqrt` of this vector) -/
def norms2sq (a : Mat) : Vec := (Mat.ofFn a.nRow a.nCol fun i j => a.get i j * a.get i j).rowSums

/-- `diag.dot(matrix)` with `diag = diagonal_pseudo_inverse(norms)` -/
def scaleRows (d : Vec) (a : Mat) : Mat := Mat.ofFn a.nRow a.nCol fun i j => vget d i * a.get i j

/-- `normalize(matrix, p=1)` on a sparse / dense matrix -/
def normalize1 (a : Mat) : Mat := scaleRows (pinvVec (norms1 a)) a

/-- `normalize(matrix, p=2)` given `s = np.sqrt(norms2sq)` (external) -/
def normalize2 (a : Mat) (s : Vec) : Mat := scaleRows (pinvVec s) a

/-! ### SparseLR (sparse_lowrank.py) -/

structure SLR where
  sparse : Mat
  tuples : List (Vec × Vec)
deriving Repr

namespace SLR

def nRow (s : SLR) : Nat := s.sparse.nRow
def nCol (s : SLR) : Nat := s.sparse.nCol

/-- `SparseLR.__init__`: every `(x, y)` must have shapes `(n_row,)`, `(n_col,)` -/
def init (S : Mat) (tuples : List (Vec × Vec)) : Except PyErr SLR :=
  if tuples.all (fun t => t.1.length == S.nRow && t.2.length == S.nCol) then .ok ⟨S, tuples⟩
  else .error .valueError

def neg (s : SLR) : Except PyErr SLR :=
  init s.sparse.neg (s.tuples.map fun t => (vneg t.1, t.2))

/-- `__add__` with another SparseLR -/
def add (s o : SLR) : Except PyErr SLR := do
  let m ← s.sparse.add? o.sparse
  init m (s.tuples ++ o.tuples)

/-- `__add__` with a `csr_matrix` -/
def addCsr (s : SLR) (a : Mat) : Except PyErr SLR := do
  let m ← s.sparse.add? a
  init m s.tuples

/-- `__sub__` : `self.__add__(-other)` -/
def sub (s o : SLR) : Except PyErr SLR := do
  let n ← o.neg
  s.add n

/-- `__sub__` with a `csr_matrix`: `sparse_mat - other` (repair F16t; the pinned code added `-other`, whose negation
wraps in an unsigned or minimal narrow integer type — over ℚ the two are the same matrix) -/
def subCsr (s : SLR) (a : Mat) : Except PyErr SLR := s.addCsr a.neg

/-- `__mul__` with a scalar -/
def mul (s : SLR) (c : Rat) : Except PyErr SLR :=
  init (s.sparse.smul c) (s.tuples.map fun t => (vsmul c t.1, t.2))

def transpose (s : SLR) : Except PyErr SLR :=
  init s.sparse.transpose (s.tuples.map fun t => (t.2, t.1))

/-- `[(f x, y) for (x, y) in tuples]` where `f` may raise -/
def mapFst? (f : Vec → Except PyErr Vec) : List (Vec × Vec) → Except PyErr (List (Vec × Vec))
  | [] => .ok []
  | t :: ts => do
    let x ← f t.1
    let r ← mapFst? f ts
    pure ((x, t.2) :: r)

def mapSnd? (f : Vec → Except PyErr Vec) : List (Vec × Vec) → Except PyErr (List (Vec × Vec))
  | [] => .ok []
  | t :: ts => do
    let y ← f t.2
    let r ← mapSnd? f ts
    pure ((t.1, y) :: r)

def leftDot (m : Mat) (s : SLR) : Except PyErr SLR := do
  let p ← m.mul? s.sparse
  let ts ← mapFst? m.mulVec? s.tuples
  init p ts

def rightDot (s : SLR) (m : Mat) : Except PyErr SLR := do
  let p ← s.sparse.mul? m
  let ts ← mapSnd? m.transpose.mulVec? s.tuples
  init p ts

/-- `astype(dtype)`: the sparse part and every low-rank vector are cast (repaired code: a new SparseLR is returned,
    the operand keeps its type) -/
def astype (dt : CastTo) (s : SLR) : SLR :=
  ⟨s.sparse.cast dt, s.tuples.map fun t => (vcast dt t.1, vcast dt t.2)⟩

/-- `_matvec`, branch `len(matrix.shape) == 1` -/
def matvec (s : SLR) (v : Vec) : Vec :=
  s.tuples.foldl
    (fun prod t =>
      let d := vdot s.nCol v t.2
      tab s.nRow fun i => vget prod i + vget t.1 i * d)
    (s.sparse.mulVec v)

/-- `_matvec`, 2-d branch: `prod += x[:, newaxis].dot(transposed.dot(y)[:, newaxis].T)` -/
def matmat (s : SLR) (x : Mat) : Mat :=
  s.tuples.foldl
    (fun prod t => Mat.ofFn s.nRow x.nCol fun i k =>
      prod.get i k + vget t.1 i * sumTo s.nCol fun j => x.get j k * vget t.2 j)
    (s.sparse.mul x)

/-- `sum(axis=1)` -/
def sum1 (s : SLR) : Vec := s.matvec (ones s.nCol)
/-- `sum(axis=0)` : `self.T.dot(np.ones(n_row))` -/
def sum0 (s : SLR) : Except PyErr Vec := do
  let t ← s.transpose
  pure (t.matvec (ones s.nRow))
/-- `sum()` -/
def sumAll (s : SLR) : Rat := vsum s.sum1

/-- the dense matrix a SparseLR denotes: `S + Σ x yᵀ` -/
def lrEntry (ts : List (Vec × Vec)) (i j : Nat) : Rat :=
  match ts with
  | [] => 0
  | t :: ts => vget t.1 i * vget t.2 j + lrEntry ts i j

def dense (s : SLR) : Mat :=
  Mat.ofFn s.nRow s.nCol fun i j => s.sparse.get i j + lrEntry s.tuples i j

end SLR

/-- `Regularizer(input_matrix, regularization)` -/
def regularizer (a : Mat) (reg : Rat) : Except PyErr SLR :=
  SLR.init a [(tab a.nRow fun _ => reg, tab a.nCol fun _ => 1 / (a.nCol : Rat))]

/-! ### SparseLR branches of utils/format.py -/

/-- `directed2undirected(slr)` (weighted): the sparse part goes through the csr branch `A + Aᵀ` -/
def slrD2U (s : SLR) : Except PyErr SLR := do
  let m ← s.sparse.add? s.sparse.transpose
  SLR.init m (s.tuples ++ s.tuples.map fun t => (t.2, t.1))

/-- `bipartite2directed(slr)` -/
def slrB2D (s : SLR) : Except PyErr SLR :=
  SLR.init (Mat.block s.sparse (Mat.zero s.nCol s.nRow))
    (s.tuples.map fun t => (t.1 ++ zeros s.nCol, zeros s.nRow ++ t.2))

/-- `bipartite2undirected(slr)` -/
def slrB2U (s : SLR) : Except PyErr SLR :=
  SLR.init (Mat.block s.sparse s.sparse.transpose)
    (s.tuples.flatMap fun t =>
      [(t.1 ++ zeros s.nCol, zeros s.nRow ++ t.2), (zeros s.nRow ++ t.2, t.1 ++ zeros s.nCol)])

/-- `normalize(slr)`: `get_norms` of a LinearOperator is `dot(ones)` (no absolute value), then
    `left_sparse_dot(diagonal_pseudo_inverse(norms))` -/
def slrNormalize (s : SLR) : Except PyErr SLR :=
  SLR.leftDot (Mat.diag s.nRow (pinvVec s.sum1)) s

/-! ### Normalizer (operators.py) -/

structure Normalizer where
  adj : Mat
  reg : Rat
  /-- diagonal of `norm_diag` -/
  normDiag : Vec
deriving Repr

namespace Normalizer

/-- `__init__` -/
def init (a : Mat) (reg : Rat) : Normalizer :=
  ⟨a, reg, pinvVec (tab a.nRow fun i => vget a.rowSums i + reg)⟩

/-- `_matvec` (1-d branch) -/
def matvec (n : Normalizer) (v : Vec) : Vec :=
  let prod := n.adj.mulVec v
  let prod := if n.reg ≠ 0 then tab n.adj.nRow fun i => vget prod i + n.reg * vmean v * 1 else prod
  tab n.adj.nRow fun i => vget n.normDiag i * vget prod i

/-- `_matvec` (2-d branch): `prod += reg * np.outer(ones(n_row), matrix.mean(axis=0))` -/
def matmat (n : Normalizer) (x : Mat) : Mat :=
  let prod := n.adj.mul x
  let prod := if n.reg ≠ 0 then
      Mat.ofFn n.adj.nRow x.nCol fun i k => prod.get i k + n.reg * (1 * (vsum (x.col k) / (x.nRow : Rat)))
    else prod
  Mat.ofFn n.adj.nRow x.nCol fun i k => vget n.normDiag i * prod.get i k

/-- `_rmatvec` (1-d branch): the product by the transposed operator (repaired code, finding F16) -/
def rmatvec (n : Normalizer) (v : Vec) : Vec :=
  let w := tab n.adj.nRow fun i => vget n.normDiag i * vget v i
  let prod := n.adj.transpose.mulVec w
  if n.reg ≠ 0 then tab n.adj.nCol fun j => vget prod j + n.reg * vsum w / (n.adj.nCol : Rat) * 1 else prod

/-- `_rmatvec` (2-d branch) -/
def rmatmat (n : Normalizer) (x : Mat) : Mat :=
  let w := Mat.ofFn n.adj.nRow x.nCol fun i k => vget n.normDiag i * x.get i k
  let prod := n.adj.transpose.mul w
  if n.reg ≠ 0 then
    Mat.ofFn n.adj.nCol x.nCol fun j k => prod.get j k + n.reg * (1 * vsum (w.col k)) / (n.adj.nCol : Rat)
  else prod

/-- the dense matrix a Normalizer denotes: `diag(normDiag) (A + [reg ≠ 0] reg/n_col 1 1ᵀ)` -/
def dense (n : Normalizer) : Mat :=
  Mat.ofFn n.adj.nRow n.adj.nCol fun i j =>
    vget n.normDiag i * (n.adj.get i j + if n.reg ≠ 0 then n.reg / (n.adj.nCol : Rat) else 0)

end Normalizer

/-! ### Laplacian (operators.py) -/

structure Laplacian where
  /-- the attribute `laplacian` = `diags(weights) - adjacency` (transposed by `.T`) -/
  lap : Mat
  reg : Rat
  /-- diagonal of `norm_diag` when `normalized_laplacian` -/
  normDiag : Option Vec
deriving Repr

namespace Laplacian

/-- `__init__`; `sq` stands for `np.sqrt(weights + regularization)` (external, only read when normalized);
    a non-square input fails in `adjacency.dot(np.ones(n))` -/
def init (a : Mat) (reg : Rat) (normalized : Bool) (sq : Vec) : Except PyErr Laplacian :=
  if a.nRow ≠ a.nCol then .error .valueError
  else
    let weights := a.mulVec (ones a.nRow)
    .ok ⟨(Mat.diag a.nRow weights).sub a, reg, if normalized then some (pinvVec sq) else none⟩

/-- `norm_diag.dot(matrix)` when normalized -/
def scale (l : Laplacian) (v : Vec) : Vec :=
  match l.normDiag with
  | some d => tab l.lap.nRow fun i => vget d i * vget v i
  | none => v

/-- `_matvec` (1-d branch) -/
def matvec (l : Laplacian) (v : Vec) : Vec :=
  let v1 := l.scale v
  let prod := l.lap.mulVec v1
  let prod := if l.reg ≠ 0 then tab l.lap.nRow fun i => vget prod i + l.reg * (vget v1 i - vmean v1) else prod
  l.scale prod

def scaleM (l : Laplacian) (x : Mat) : Mat :=
  match l.normDiag with
  | some d => Mat.ofFn l.lap.nRow x.nCol fun i k => vget d i * x.get i k
  | none => x

/-- `_matvec` (2-d branch) -/
def matmat (l : Laplacian) (x : Mat) : Mat :=
  let x1 := l.scaleM x
  let prod := l.lap.mul x1
  let prod := if l.reg ≠ 0 then
      Mat.ofFn l.lap.nRow x.nCol fun i k =>
        prod.get i k + l.reg * (x1.get i k - 1 * (vsum (x1.col k) / (x1.nRow : Rat)))
    else prod
  l.scaleM prod

/-- `_transpose` (repaired code): same operator with the attribute `laplacian` transposed -/
def transpose (l : Laplacian) : Laplacian := { l with lap := l.lap.transpose }

/-- `astype(dtype)` casts the attribute `laplacian` only (repaired code: on a copy) -/
def astype (dt : CastTo) (l : Laplacian) : Laplacian := { l with lap := l.lap.cast dt }

def dvec (l : Laplacian) : Vec :=
  match l.normDiag with
  | some d => d
  | none => ones l.lap.nRow

/-- dense: `N (L + [reg ≠ 0] reg (I - 1 1ᵀ / n)) N`, `N = diag(normDiag)` or the identity -/
def dense (l : Laplacian) : Mat :=
  Mat.ofFn l.lap.nRow l.lap.nRow fun i j =>
    vget l.dvec i * (l.lap.get i j +
      (if l.reg ≠ 0 then l.reg * ((if i = j then 1 else 0) - 1 / (l.lap.nRow : Rat)) else 0)) * vget l.dvec j

end Laplacian

/-! ### CoNeighbor (operators.py) -/

structure CoNeighbor where
  backward : Mat
  forward : Mat
deriving Repr

namespace CoNeighbor

/-- `__init__` (`check_format` raises on an empty matrix) -/
def init (a : Mat) (normalized : Bool) : Except PyErr CoNeighbor :=
  if a.isNull then .error .valueError
  else .ok ⟨a, if normalized then normalize1 a.transpose else a.transpose⟩

/-- `shape` (kept up to date by the repaired `left_sparse_dot` / `right_sparse_dot`) -/
def nRow (c : CoNeighbor) : Nat := c.backward.nRow
def nCol (c : CoNeighbor) : Nat := c.forward.nCol

def matvec (c : CoNeighbor) (v : Vec) : Vec := c.backward.mulVec (c.forward.mulVec v)

/-- `__mul__` (`self.backward *= other`) -/
def mul (c : CoNeighbor) (k : Rat) : CoNeighbor := { c with backward := c.backward.smul k }
/-- `__neg__` -/
def neg (c : CoNeighbor) : CoNeighbor := c.mul (-1)

/-- `_transpose` -/
def transpose (c : CoNeighbor) : CoNeighbor := ⟨c.forward.transpose, c.backward.transpose⟩

def leftDot (m : Mat) (c : CoNeighbor) : Except PyErr CoNeighbor := do
  let b ← m.mul? c.backward
  pure { c with backward := b }

def rightDot (c : CoNeighbor) (m : Mat) : Except PyErr CoNeighbor := do
  let f ← c.forward.mul? m
  pure { c with forward := f }

/-- `astype(dtype)` casts `backward` and `forward` (repaired code: on a copy) -/
def astype (dt : CastTo) (c : CoNeighbor) : CoNeighbor := ⟨c.backward.cast dt, c.forward.cast dt⟩

def dense (c : CoNeighbor) : Mat := c.backward.mul c.forward

end CoNeighbor

/-! ### Polynome (polynome.py) -/

structure Polynome where
  matrix : Mat
  coeffs : List Rat
deriving Repr

namespace Polynome

def init (a : Mat) (coeffs : List Rat) : Except PyErr Polynome :=
  if coeffs.isEmpty then .error .valueError
  else if a.isNull then .error .valueError          -- check_format
  else if a.nRow ≠ a.nCol then .error .valueError     -- check_square
  else .ok ⟨a, coeffs⟩

def neg (p : Polynome) : Except PyErr Polynome := init p.matrix (p.coeffs.map fun c => -c)
def mul (p : Polynome) (k : Rat) : Except PyErr Polynome := init p.matrix (p.coeffs.map fun c => k * c)
def transpose (p : Polynome) : Except PyErr Polynome := init p.matrix.transpose p.coeffs

/-- the loop `for a in self.coeffs[::-1][1:]: y = self.matrix.dot(y) + a * matrix` -/
def hornerLoop (m : Mat) (v : Vec) (rest : List Rat) (y : Vec) : Vec :=
  rest.foldl (fun y a =>
    let my := m.mulVec y
    tab m.nRow fun i => vget my i + a * vget v i) y

/-- `_matvec` (Ruffini–Horner) -/
def matvec (p : Polynome) (v : Vec) : Vec :=
  match p.coeffs.reverse with
  | [] => []
  | c :: rest => hornerLoop p.matrix v rest (tab v.length fun i => c * vget v i)

/-- `_matvec` on a 2-d array: the same loop column by column -/
def hornerLoopM (m : Mat) (x : Mat) (rest : List Rat) (y : Mat) : Mat :=
  rest.foldl (fun y a =>
    let my := m.mul y
    Mat.ofFn m.nRow x.nCol fun i k => my.get i k + a * x.get i k) y

def matmat (p : Polynome) (x : Mat) : Mat :=
  match p.coeffs.reverse with
  | [] => x
  | c :: rest => hornerLoopM p.matrix x rest (x.smul c)

/-- `Σ_k coeffs[k] · M^k` from power `k0` on -/
def powerSum (m : Mat) : List Rat → Nat → Mat
  | [], _ => Mat.zero m.nRow m.nRow
  | c :: cs, k => ((m.pow k).smul c).add (powerSum m cs (k+1))

/-- dense: `Σ_k coeffs[k] · M^k` -/
def dense (p : Polynome) : Mat := powerSum p.matrix p.coeffs 0

end Polynome

/-! ### operator values and Python's dispatch -/

inductive Op
  | slr (s : SLR)
  /-- a Normalizer, or scipy's `_TransposedLinearOperator` around it (`transposed = true`) -/
  | nrm (n : Normalizer) (transposed : Bool)
  | lap (l : Laplacian)
  | con (c : CoNeighbor)
  | pol (p : Polynome)
  /-- scipy's `_SumLinearOperator` -/
  | gsum (a b : Op)
  /-- scipy's `_ScaledLinearOperator` -/
  | gscaled (a : Op) (c : Rat)
deriving Repr

namespace Op

def nRow : Op → Nat
  | slr s => s.nRow
  | nrm n t => if t then n.adj.nCol else n.adj.nRow
  | lap l => l.lap.nRow
  | con c => c.nRow
  | pol p => p.matrix.nRow
  | gsum a _ => a.nRow
  | gscaled a _ => a.nRow

def nCol : Op → Nat
  | slr s => s.nCol
  | nrm n t => if t then n.adj.nRow else n.adj.nCol
  | lap l => l.lap.nRow
  | con c => c.nCol
  | pol p => p.matrix.nRow
  | gsum a _ => a.nCol
  | gscaled a _ => a.nCol

/-- `_matvec` on a vector -/
def matvec : Op → Vec → Vec
  | slr s, v => s.matvec v
  | nrm n false, v => n.matvec v
  | nrm n true, v => n.rmatvec v
  | lap l, v => l.matvec v
  | con c, v => c.matvec v
  | pol p, v => p.matvec v
  | gsum a b, v =>
    let av := a.matvec v
    let bv := b.matvec v
    tab a.nRow fun i => vget av i + vget bv i
  | gscaled a c, v =>
    let av := a.matvec v
    tab a.nRow fun i => c * vget av i

/-- `operator.dot(x)` on a vector: scipy checks the length -/
def dot (o : Op) (v : Vec) : Except PyErr Vec :=
  if v.length = o.nCol then .ok (o.matvec v) else .error .valueError

/-- `operator.dot(X)` on a 2-d array: scipy (≥ 1.18) stacks `_matvec` of the columns -/
def dotMat (o : Op) (x : Mat) : Except PyErr Mat :=
  if x.nRow ≠ o.nCol then .error .valueError
  else if x.nCol = 0 then .error .valueError        -- `np.stack` of an empty list of columns
  else .ok (Mat.ofCols o.nRow x.nCol fun k => o.matvec (x.col k))

/-- a direct call `operator._matvec(X)` with a 2-d array (the 2-d branches of the code) -/
def matvec2d : Op → Mat → Except PyErr Mat
  | slr s, x => .ok (s.matmat x)
  | nrm n false, x => .ok (n.matmat x)
  | nrm n true, x => .ok (n.rmatmat x)
  | lap l, x => .ok (l.matmat x)
  | con c, x => .ok (c.backward.mul (c.forward.mul x))
  | pol p, x => .ok (p.matmat x)
  | _, _ => .error .unsupported

/-- the dense matrix an operator value denotes -/
def dense : Op → Mat
  | slr s => s.dense
  | nrm n false => n.dense
  | nrm n true => n.dense.transpose
  | lap l => l.dense
  | con c => c.dense
  | pol p => p.dense
  | gsum a b => a.dense.add b.dense
  | gscaled a c => a.dense.smul c

/-- unary minus: the class's own `__neg__`, else scipy's `_ScaledLinearOperator(self, -1)` -/
def neg : Op → Except PyErr Op
  | slr s => do pure (slr (← s.neg))
  | pol p => do pure (pol (← p.neg))
  | con c => .ok (con c.neg)
  | o => .ok (gscaled o (-1))

/-- `operator * c` -/
def mul : Op → Rat → Except PyErr Op
  | slr s, c => do pure (slr (← s.mul c))
  | pol p, c => do pure (pol (← p.mul c))
  | con k, c => .ok (con (k.mul c))
  | o, c => .ok (gscaled o c)

/-- `a + b` for two operators -/
def add : Op → Op → Except PyErr Op
  | slr s, slr o => do pure (slr (← s.add o))
  /- every other pair (a SparseLR with another class included): scipy's `_SumLinearOperator` -/
  | a, b => if a.nRow = b.nRow ∧ a.nCol = b.nCol then .ok (gsum a b) else .error .valueError

/-- `a - b` : `self.__add__(-other)` in both SparseLR and scipy -/
def sub (a b : Op) : Except PyErr Op := do
  let nb ← b.neg
  a.add nb

/-- `.T` -/
def transpose : Op → Except PyErr Op
  | slr s => do pure (slr (← s.transpose))
  | nrm n t => .ok (nrm n (!t))
  | lap l => .ok (lap l.transpose)
  | con c => .ok (con c.transpose)
  | pol p => do pure (pol (← p.transpose))
  /- scipy wraps a combinator in `_TransposedLinearOperator`, whose product is `_rmatvec` of the combinator:
     `A.rmatvec(x) + B.rmatvec(x)`, `alpha * A.rmatvec(x)`, and `rmatvec` of a class is the product of its own
     transposed operator (`_adjoint` = `transpose()`, Normalizer: `_rmatvec`): the transposition is pushed to the leaves -/
  | gsum a b => do pure (gsum (← a.transpose) (← b.transpose))
  | gscaled a c => do pure (gscaled (← a.transpose) c)

/-- `.H`: the class's own `_adjoint` (= `transpose()`; Normalizer: scipy's adjoint wrapper over `_rmatvec`), and for
scipy's combinators `_adjoint` re-dispatches the arithmetic on the adjoints: `A.H + B.H`, `A.H * alpha` -/
def adjoint : Op → Except PyErr Op
  | gsum a b => do
    let a' ← a.adjoint
    let b' ← b.adjoint
    a'.add b'
  | gscaled a c => do
    let a' ← a.adjoint
    a'.mul c
  | o => o.transpose

/-- `operator.H.dot(v)` -/
def hdot (o : Op) (v : Vec) : Except PyErr Vec := do
  let h ← o.adjoint
  h.dot v

/-- `c * operator` (`__rmul__`): scipy's `_ScaledLinearOperator` for every class -/
def rmul (c : Rat) (o : Op) : Except PyErr Op := .ok (gscaled o c)

def addCsr : Op → Mat → Except PyErr Op
  | slr s, a => do pure (slr (← s.addCsr a))
  | _, _ => .error .unsupported

def subCsr : Op → Mat → Except PyErr Op
  | slr s, a => do pure (slr (← s.subCsr a))
  | _, _ => .error .unsupported

def leftDot : Mat → Op → Except PyErr Op
  | m, slr s => do pure (slr (← SLR.leftDot m s))
  | m, con c => do pure (con (← CoNeighbor.leftDot m c))
  | _, _ => .error .attributeError

def rightDot : Op → Mat → Except PyErr Op
  | slr s, m => do pure (slr (← s.rightDot m))
  | con c, m => do pure (con (← c.rightDot m))
  | _, _ => .error .attributeError

def astype (dt : CastTo) : Op → Except PyErr Op
  | slr s => .ok (slr (s.astype dt))
  | lap l => .ok (lap (l.astype dt))
  | con c => .ok (con (c.astype dt))
  | _ => .error .attributeError

def d2u : Op → Except PyErr Op
  | slr s => do pure (slr (← slrD2U s))
  | _ => .error .typeError

/-- `directed2undirected(operator, weighted=False)`: refused for a SparseLR (ValueError), `TypeError` otherwise -/
def d2uUnweighted : Op → Except PyErr Op
  | slr _ => .error .valueError
  | _ => .error .typeError

def b2d : Op → Except PyErr Op
  | slr s => do pure (slr (← slrB2D s))
  | _ => .error .typeError

def b2u : Op → Except PyErr Op
  | slr s => do pure (slr (← slrB2U s))
  | _ => .error .typeError

/-- `normalize(operator)`: `left_sparse_dot(diagonal_pseudo_inverse(operator.dot(ones)))` -/
def normalize : Op → Except PyErr Op
  | slr s => do pure (slr (← slrNormalize s))
  | con c => do
    let d := Mat.diag c.nRow (pinvVec (c.matvec (ones c.nCol)))
    pure (con (← CoNeighbor.leftDot d c))
  | _ => .error .unsupported

end Op

/-! ### one CoNeighbor object used twice (finding F16i)

`CoNeighbor.__neg__` / `__mul__` work in place and return the operand itself, so an expression that mentions the
same Python object twice sees the mutation in both places. -/

inductive SharedPattern
  | sub        -- `c - c`        : `c.__add__(-c)`, the argument `-c` negates `c` itself
  | addNeg     -- `c + (-c)`
  | mulAdd     -- `(c * 2) + c`  : `c * 2` scales `c` itself
deriving DecidableEq, Repr

/-- what Python computes for the pattern on ONE CoNeighbor object -/
def Op.shared : SharedPattern → CoNeighbor → Op
  | .sub, c => .gsum (.con c.neg) (.con c.neg)
  | .addNeg, c => .gsum (.con c.neg) (.con c.neg)
  | .mulAdd, c => .gsum (.con (c.mul 2)) (.con (c.mul 2))

/-! ### operator expressions -/

inductive OpExpr
  | slr (s : Mat) (tuples : List (Vec × Vec))
  | regularizer (a : Mat) (reg : Rat)
  | normalizer (a : Mat) (reg : Rat)
  | laplacian (a : Mat) (reg : Rat) (normalized : Bool) (sq : Vec)
  | coneighbor (a : Mat) (normalized : Bool)
  | polynome (a : Mat) (coeffs : List Rat)
  | neg (e : OpExpr)
  | add (e f : OpExpr)
  | sub (e f : OpExpr)
  | addCsr (e : OpExpr) (a : Mat)
  | subCsr (e : OpExpr) (a : Mat)
  | mul (e : OpExpr) (c : Rat)
  | transpose (e : OpExpr)
  | leftDot (m : Mat) (e : OpExpr)
  | rightDot (e : OpExpr) (m : Mat)
  | astype (e : OpExpr) (dt : CastTo)
  | rmul (c : Rat) (e : OpExpr)
  | d2u (e : OpExpr)
  | b2d (e : OpExpr)
  | b2u (e : OpExpr)
  | normalize (e : OpExpr)
deriving Repr

namespace OpExpr

/-- evaluate an expression as Python does (constructors, then the dispatch of `Op`) -/
def eval : OpExpr → Except PyErr Op
  | slr s ts => do pure (.slr (← SLR.init s ts))
  | regularizer a reg => do pure (.slr (← LinOp.regularizer a reg))
  | normalizer a reg =>
    -- without columns `matrix.mean()` is NaN: outside the model
    if a.nCol = 0 then .error .unsupported else .ok (.nrm (Normalizer.init a reg) false)
  | laplacian a reg nz sq =>
    if a.nRow = 0 ∧ a.nCol = 0 then .error .unsupported
    else do pure (.lap (← Laplacian.init a reg nz sq))
  | coneighbor a nz => do pure (.con (← CoNeighbor.init a nz))
  | polynome a cs => do pure (.pol (← Polynome.init a cs))
  | neg e => do (← e.eval).neg
  | add e f => do
    let a ← e.eval
    let b ← f.eval
    a.add b
  | sub e f => do
    let a ← e.eval
    let b ← f.eval
    a.sub b
  | addCsr e a => do (← e.eval).addCsr a
  | subCsr e a => do (← e.eval).subCsr a
  | mul e c => do (← e.eval).mul c
  | transpose e => do (← e.eval).transpose
  | leftDot m e => do Op.leftDot m (← e.eval)
  | rightDot e m => do (← e.eval).rightDot m
  | astype e dt => do (← e.eval).astype dt
  | rmul c e => do (← e.eval).rmul c
  | d2u e => do (← e.eval).d2u
  | b2d e => do (← e.eval).b2d
  | b2u e => do (← e.eval).b2u
  | normalize e => do (← e.eval).normalize

end OpExpr

/-- the same pattern as an expression over two separate objects -/
def OpExpr.sharedPattern (p : SharedPattern) (a : Mat) (nz : Bool) : OpExpr :=
  match p with
  | .sub => .sub (.coneighbor a nz) (.coneighbor a nz)
  | .addNeg => .add (.coneighbor a nz) (.neg (.coneighbor a nz))
  | .mulAdd => .add (.mul (.coneighbor a nz) 2) (.coneighbor a nz)

/-! ### programs: operator objects used several times

A program binds one operator per statement; a statement may use any operator bound before, any number of times
(`a + b`, then `a - b`, then `a.T` …).  In the model operators are values: executing a statement appends a value to the
environment and cannot change the values already there.  This is what the code has to refine — an operation that
modifies one of its operands in place (finding F16i for CoNeighbor; `low_rank_tuples +=` in a seeded change of
`SparseLR.__add__`) departs from it, and the harness re-evaluates the operands after every statement. -/

inductive Stmt
  | leaf (e : OpExpr)
  | neg (i : Nat)
  | mul (i : Nat) (c : Rat)
  | transpose (i : Nat)
  | add (i j : Nat)
  | sub (i j : Nat)
  | addCsr (i : Nat) (a : Mat)
  | subCsr (i : Nat) (a : Mat)
  | leftDot (m : Mat) (i : Nat)
  | rightDot (i : Nat) (m : Mat)
  | astype (i : Nat) (dt : CastTo)
  | rmul (c : Rat) (i : Nat)
  | d2u (i : Nat)
  | b2d (i : Nat)
  | b2u (i : Nat)
  | normalize (i : Nat)
deriving Repr

/-- the operator bound by statement `i` (an unbound index is a Python `IndexError` of the harness, never generated) -/
def envGet (env : List Op) (i : Nat) : Except PyErr Op :=
  match env[i]? with
  | some o => .ok o
  | none => .error .indexError

namespace Stmt

/-- execute one statement in an environment of operator values -/
def exec (env : List Op) : Stmt → Except PyErr Op
  | leaf e => e.eval
  | neg i => do (← envGet env i).neg
  | mul i c => do (← envGet env i).mul c
  | transpose i => do (← envGet env i).transpose
  | add i j => do
    let a ← envGet env i
    let b ← envGet env j
    a.add b
  | sub i j => do
    let a ← envGet env i
    let b ← envGet env j
    a.sub b
  | addCsr i a => do (← envGet env i).addCsr a
  | subCsr i a => do (← envGet env i).subCsr a
  | leftDot m i => do Op.leftDot m (← envGet env i)
  | rightDot i m => do (← envGet env i).rightDot m
  | astype i dt => do (← envGet env i).astype dt
  | rmul c i => do (← envGet env i).rmul c
  | d2u i => do (← envGet env i).d2u
  | b2d i => do (← envGet env i).b2d
  | b2u i => do (← envGet env i).b2u
  | normalize i => do (← envGet env i).normalize

/-- the expression (tree) a statement denotes, given the trees of the operators bound before -/
def unfold (trees : List OpExpr) : Stmt → Option OpExpr
  | leaf e => some e
  | neg i => do pure (.neg (← trees[i]?))
  | mul i c => do pure (.mul (← trees[i]?) c)
  | transpose i => do pure (.transpose (← trees[i]?))
  | add i j => do pure (.add (← trees[i]?) (← trees[j]?))
  | sub i j => do pure (.sub (← trees[i]?) (← trees[j]?))
  | addCsr i a => do pure (.addCsr (← trees[i]?) a)
  | subCsr i a => do pure (.subCsr (← trees[i]?) a)
  | leftDot m i => do pure (.leftDot m (← trees[i]?))
  | rightDot i m => do pure (.rightDot (← trees[i]?) m)
  | astype i dt => do pure (.astype (← trees[i]?) dt)
  | rmul c i => do pure (.rmul c (← trees[i]?))
  | d2u i => do pure (.d2u (← trees[i]?))
  | b2d i => do pure (.b2d (← trees[i]?))
  | b2u i => do pure (.b2u (← trees[i]?))
  | normalize i => do pure (.normalize (← trees[i]?))

end Stmt

namespace Prog

/-- run the statements one after the other: every statement appends the operator it builds -/
def run : List Stmt → List Op → Except PyErr (List Op)
  | [], env => .ok env
  | s :: ss, env => do
    let o ← s.exec env
    run ss (env ++ [o])

/-- unfold the statements into the trees they denote -/
def unfold : List Stmt → List OpExpr → Option (List OpExpr)
  | [], trees => some trees
  | s :: ss, trees => do
    let t ← s.unfold trees
    unfold ss (trees ++ [t])

end Prog

/-! ### `safe_sparse_dot` (basics.py): which product is taken -/

inductive Operand
  | ndarray (m : Mat)
  | csr (m : Mat)
  | op (o : Op)

inductive DotResult
  | mat (m : Mat)
  | op (o : Op)
  | none

/-- `safe_sparse_dot(a, b)`: the first branch is `b.T.dot(a.T).T`, the last one `a.dot(b)` -/
def safeSparseDot (a b : Operand) : Except PyErr DotResult :=
  match a, b with
  | .ndarray x, .ndarray y => do
    let r ← y.transpose.mul? x.transpose
    pure (.mat r.transpose)
  | .ndarray x, .csr y => do
    let r ← y.transpose.mul? x.transpose
    pure (.mat r.transpose)
  | .ndarray x, .op o => do
    let t ← o.transpose
    let r ← t.dotMat x.transpose
    pure (.mat r.transpose)
  | .op _, .op _ => .error .notImplemented
  | .op o, .csr m =>
    match o with
    | .slr _ | .con _ => do pure (.op (← o.rightDot m))
    | _ => .error .unsupported
  | .csr m, .op o =>
    match o with
    | .slr _ | .con _ => do pure (.op (← Op.leftDot m o))
    | _ => .error .unsupported
  | .op o, .ndarray x => do pure (.mat (← o.dotMat x))
  | .csr x, .ndarray y => do pure (.mat (← x.mul? y))
  | .csr x, .csr y => do pure (.mat (← x.mul? y))

end SkNet.LinOp
