/-
Model of sknetwork/hierarchy/metrics.py (property C08): `_instantiate_vars`, `get_sampling_distributions`,
`dasgupta_cost`, `dasgupta_score`, and the rational part of `tree_sampling_divergence` (the logarithms are
taken in `Float` by the driver; `tsdTerms` returns the exact pairs (p, q) of every sum).

The graph enters as a dense `n × n` matrix of rationals (`adj`), a stored entry = a non-zero value.
`get_probs('uniform')` = 1/n, `get_probs('degree')` = row sums / total (column sums for the transpose).
-/
import SkNet.Model.AggGraph

namespace SkNet.HMetrics
open SkNet SkNet.Dendro SkNet.Agg

abbrev Mat := List (List Rat)

def Mat.get (a : Mat) (i j : Nat) : Rat := (a.getD i []).getD j 0

def sumR (l : List Rat) : Rat := l.foldl (· + ·) 0

def Mat.total (a : Mat) : Rat := sumR (a.map sumR)

/-- `get_probs(weights, adjacency)` (rows) and `get_probs(weights, adjacency.T)` (columns) -/
def probsRow (degree : Bool) (n : Nat) (a : Mat) : List Rat :=
  if degree then (tab n fun i => sumR (tab n fun j => a.get i j)).map (· / a.total)
  else tab n fun _ => 1 / (n : Rat)

def probsCol (degree : Bool) (n : Nat) (a : Mat) : List Rat :=
  if degree then (tab n fun j => sumR (tab n fun i => a.get i j)).map (· / a.total)
  else tab n fun _ => 1 / (n : Rat)

/-- `directed2undirected(adjacency)` = A + Aᵀ -/
def symmetrize (n : Nat) (a : Mat) : Mat := tab n fun i => tab n fun j => a.get i j + a.get j i

/-- `_instantiate_vars`: the aggregate graph on the normalised symmetric matrix -/
def instantiate (degree : Bool) (n : Nat) (a : Mat) : AggGraph Rat :=
  let s := symmetrize n a
  let tot := s.total
  let rows := tab n fun i => ((List.range n).filter fun j => s.get i j != 0).map fun j => (j, s.get i j / tot)
  AggGraph.init rows (probsRow degree n a) (probsCol degree n a)

structure Sampling where
  edge : List Rat
  node : List Rat
  weight : List Rat      -- cluster_weight / 2

def wOf (d : Dict Rat) (k : Nat) : Rat := (d.get? k).getD 0

/-- `edge_sampling[t]` and `node_sampling[t]` for the merge of `i` and `j` in the current aggregate graph -/
def samplingOf (n : Nat) (g : AggGraph Rat) (i j : Nat) : Rat × Rat :=
  let e0 : Rat := if (row g.nb i).contains j then 2 * getEntry g.nb i j else 0
  let nd0 : Rat := wOf g.outW i * wOf g.inW j + wOf g.outW j * wOf g.inW i
  let nodes := if i = j then [i] else [i, j]
  nodes.foldl (fun (p : Rat × Rat) node =>
      if node < n then
        (if (row g.nb node).contains node then p.1 + getEntry g.nb node node else p.1,
         p.2 + wOf g.outW node * wOf g.inW node)
      else p) (e0, nd0)

/-- `cluster_weight[t]` (before the final division by 2) -/
def clusterWeightOf (g : AggGraph Rat) (i j : Nat) : Rat :=
  wOf g.outW i + wOf g.outW j + wOf g.inW i + wOf g.inW j

/-- the loop `for t in range(n - 1)` of `get_sampling_distributions` -/
def samplingLoop (n : Nat) : List (Row α) → AggGraph Rat → Sampling → Sampling
  | [], _, acc => acc
  | r :: rs, g, acc =>
    let p := samplingOf n g r.i r.j
    samplingLoop n rs (g.merge r.i r.j)
      { edge := acc.edge ++ [p.1], node := acc.node ++ [p.2],
        weight := acc.weight ++ [clusterWeightOf g r.i r.j / 2] }

def getSamplingDistributions (degree : Bool) (n : Nat) (a : Mat) (D : Dendro α) : Sampling :=
  -- the loop reads dendrogram[t] for t < n - 1
  samplingLoop n (D.take (n - 1)) (instantiate degree n a) { edge := [], node := [], weight := [] }

def dot (x y : List Rat) : Rat := sumR ((x.zip y).map fun p => p.1 * p.2)

/-- `dasgupta_cost(adjacency, dendrogram, weights, normalized)`; `check_format` refuses an empty matrix,
    `check_min_size(n, 2)`; a dendrogram with fewer than n-1 rows is an IndexError -/
def dasguptaCost (degree normalized : Bool) (n : Nat) (a : Mat) (D : Dendro α) : Except PyErr Rat :=
  if a.total == 0 && (List.range n).all (fun i => (List.range n).all fun j => a.get i j == 0) then .error .valueError
  else if n < 2 then .error .valueError
  else if D.length + 1 < n then .error .indexError
  else
    let s := getSamplingDistributions degree n a D
    let cost := dot s.edge s.weight
    .ok (if normalized then cost else if degree then cost * a.total else cost * (n : Rat))

def dasguptaScore (degree : Bool) (n : Nat) (a : Mat) (D : Dendro α) : Except PyErr Rat :=
  (dasguptaCost degree true n a D).map (1 - ·)

/-- the exact ingredients of `tree_sampling_divergence`: the pairs `(edge_sampling[t], node_sampling[t])`
    with `edge_sampling[t] ≠ 0`, and the pairs `(A_uv, w_u · w_v)` of the mutual information -/
structure TsdTerms where
  score : List (Rat × Rat)
  mutualInfo : List (Rat × Rat)

def tsdTerms (degree : Bool) (n : Nat) (a0 : Mat) (D : Dendro α) : Except PyErr TsdTerms :=
  if (List.range n).all (fun i => (List.range n).all fun j => a0.get i j == 0) then .error .valueError
  else if n < 2 then .error .valueError
  else if D.length + 1 < n then .error .indexError
  else
    let tot := a0.total
    let a : Mat := tab n fun i => tab n fun j => a0.get i j / tot
    let s := getSamplingDistributions degree n a D
    let wr := probsRow degree n a
    let wc := probsCol degree n a
    .ok { score := (s.edge.zip s.node).filter fun p => p.1 != 0
          mutualInfo := (List.range n).flatMap fun u => ((List.range n).filter fun v =>
              a.get u v != 0 && wr.getD u 0 != 0 && wc.getD v 0 != 0).map fun v =>
                (a.get u v, wr.getD u 0 * wc.getD v 0) }

end SkNet.HMetrics
